"""C13 - beamforming helpers agree with their primitives and act per leading index."""
import numpy as np

from .. import psd_util as pu
from ..core import Fail, Skip, oracle
from ..lean import cbits, fbits, parse_complex, parse_ints, run_driver

ID = 'C13'
DRIVERS = ('driver_psd',)
THEOREMS = [
    'PbBss.C13.dispatch_table',
    'PbBss.C13.dispatch_channel',
    'PbBss.C13.dispatch_rejects',
    'PbBss.C13.dispatch_lcmv_rejected',
    'PbBss.C13.evalPlan_composition',
    'PbBss.C13.applyBf_eq',
    'PbBss.C13.phase_first_bin',
    'PbBss.C13.phase_magnitude',
    'PbBss.C13.phase_aligned',
    'PbBss.C13.phaseCorrection_fixLead',
    'PbBss.C13.cumprod_axis0_not_per_index',
    'PbBss.C13.stableSolve_regular_isolated',
    'PbBss.C13.stableSolve_neighbours_irrelevant',
    'PbBss.C13.stableSolve_all_regular',
    'PbBss.C13.stableSolve_singular_lstsq',
]
ASSUMPTIONS = [
    'the primitives called by get_bf_vector (PCA, GEV, MVDR, Souden MVDR, WMWF, BAN) are parameters of the dispatch '
    'theorems; their own properties are C11/C12',
    'np.linalg.solve / lstsq are externals of stable_solve: the model is the decision tree over their per-matrix '
    'outcomes (contract: the batched solve raises iff some matrix raises, and otherwise equals the per-matrix solves); '
    'outcomes are taken from the real calls in the correspondence run',
    'np.angle / np.exp are the externals of phase_correction (arg, exp(i.)); theorems use Complex.arg / Complex.exp',
    'finiteness of Souden MVDR / WMWF on singular PSD matrices is a floating-point claim: decided by the search on '
    'the real code, no theorem',
    'names are ASCII strings (str.isdigit on non-ASCII digits is outside the model)',
]

from pb_bss.extraction import beamformer as bfm  # noqa: E402
from pb_bss.extraction import beamformer_wrapper as bw  # noqa: E402
from pb_bss.math import solve as slv  # noqa: E402

RTOL = 1e-9

# the reading of a name, written from the docstring of get_bf_vector ("steps separated with +"):
# core name -> (pre-step, main step)
CORES = {
    'pca': (None, 'pca'),
    'pca+mvdr': ('atf_pca', 'mvdr'),
    'scaled_gev_atf+mvdr': ('atf_gev', 'mvdr'),
    'mvdr_souden': (None, 'souden'),
    'rank1_pca+mvdr_souden': ('rank1_pca', 'souden'),
    'rank1_gev+mvdr_souden': ('rank1_gev', 'souden'),
    'gev': (None, 'gev'),
    'rank1_pca+gev': ('rank1_pca', 'gev'),
    'rank1_gev+gev': ('rank1_gev', 'gev'),
    'wmwf': (None, 'wmwf'),
    'rank1_pca+wmwf': ('rank1_pca', 'wmwf'),
    'rank1_gev+wmwf': ('rank1_gev', 'wmwf'),
}
PRIMS = ['get_pca_vector', 'get_gev_vector', 'get_mvdr_vector', 'get_mvdr_vector_souden', 'get_wmwf_vector',
         'blind_analytic_normalization']
PRIM_CODE = {p: i + 1 for i, p in enumerate(PRIMS)}


def read_name(name):
    """independent reading of a beamformer name -> (pre, main, channel, ban) or None when it is not a supported name"""
    ban = name.endswith('+ban')
    core = name[:-4] if ban else name
    if 'lcmv' in name:
        return None
    if core in CORES:
        pre, main = CORES[core]
        return pre, main, None, ban
    if core.startswith('ch') and len(core) > 2 and all(c in '0123456789' for c in core[2:]):
        return None, 'ch', int(core[2:]), ban
    return None


def expected_trace(name):
    r = read_name(name)
    if r is None:
        return None
    pre, main, ch, ban = r
    tr = []
    if pre in ('atf_pca', 'rank1_pca'):
        tr.append('get_pca_vector')
    if pre in ('atf_gev', 'rank1_gev'):
        tr.append('get_gev_vector')
    tr += {'pca': ['get_pca_vector'], 'mvdr': ['get_mvdr_vector'], 'souden': ['get_mvdr_vector_souden'],
           'gev': ['get_gev_vector'], 'wmwf': ['get_wmwf_vector'], 'ch': []}[main]
    if ban:
        tr.append('blind_analytic_normalization')
    return tr


def _outer_scaled(cov, a):
    r1 = a[..., :, None] * np.conj(a[..., None, :])
    scale = np.trace(cov, axis1=-1, axis2=-2) / np.trace(r1, axis1=-1, axis2=-2)
    return scale[..., None, None] * r1


def compose(name, target, noise, kwargs, helpers):
    """what the name spells, computed by calling the primitives directly.  helpers=True: the pre-steps are the public
    rank-one / ATF helpers of the wrapper module (bit-exact comparison); helpers=False: the pre-steps are written out
    from their definition (trace-preserving outer product of the PCA vector / of Phi_nn times the GEV vector)."""
    pre, main, ch, ban = read_name(name)
    kw = dict(kwargs)
    akw = kw.pop('atf_kwargs', {}) if pre is not None else {}
    if pre == 'atf_pca':
        atf = bfm.get_pca_vector(target, **akw)
    elif pre == 'atf_gev':
        atf = np.einsum('...dD,...D->...d', noise, bfm.get_gev_vector(target, noise, **akw))
    elif pre == 'rank1_pca':
        target = (bw.get_pca_rank_one_estimate(target, **akw) if helpers
                  else _outer_scaled(target, bfm.get_pca_vector(target, **akw)))
    elif pre == 'rank1_gev':
        if helpers:
            target = bw.get_gev_rank_one_estimate(target, noise, **akw)
        else:
            a = np.einsum('...dD,...D->...d', noise, bfm.get_gev_vector(target, noise, **akw))
            target = _outer_scaled(target, a)
    if main == 'pca':
        w = bfm.get_pca_vector(target, **kw)
    elif main == 'mvdr':
        w = bfm.get_mvdr_vector(atf, noise)
    elif main == 'souden':
        w = bfm.get_mvdr_vector_souden(target, noise, **kw)
    elif main == 'gev':
        w = bfm.get_gev_vector(target, noise, **kw)
    elif main == 'wmwf':
        w = bfm.get_wmwf_vector(target, noise, **kw)
    else:
        e = np.zeros(target.shape[-1])
        e[ch] = 1
        w = np.broadcast_to(e, target.shape[:-1])
    if ban:
        w = bfm.blind_analytic_normalization(w, noise)
    return w


class Spy:
    """records which primitives get_bf_vector calls (in order); the primitives themselves run unchanged"""

    def __enter__(self):
        self.trace = []
        self.saved = {p: getattr(bw, p) for p in PRIMS}
        for p in PRIMS:
            setattr(bw, p, self._wrap(p, self.saved[p]))
        return self

    def _wrap(self, name, fn):
        def inner(*a, **k):
            self.trace.append(name)
            return fn(*a, **k)
        return inner

    def __exit__(self, *a):
        for p, fn in self.saved.items():
            setattr(bw, p, fn)


# ----------------------------------------------------------------------------- oracles on the real code
@oracle
def bf_vector_is_composition(name, target, noise, kwargs):
    r = read_name(name)
    if r is None:
        return Skip('unsupported name')
    if r[1] == 'ch' and r[2] >= target.shape[-1]:
        return Skip('channel index >= sensors')
    t0, n0 = target.copy(order='K'), noise.copy(order='K')
    want = compose(name, target, noise, kwargs, helpers=True)
    # with an estimated reference channel the arg-max over (analytically equal) SNRs of a rank-one target is decided by
    # rounding, so the written-out pre-step is only compared when the reference channel is explicit
    est_ref = (r[1] == 'souden' and kwargs.get('ref_channel') is None) or \
        (r[1] == 'wmwf' and kwargs.get('reference_channel') is None)
    want2 = None if (est_ref and r[0] is not None) else compose(name, target, noise, kwargs, helpers=False)
    with Spy() as spy:
        got = bw.get_bf_vector(name, target, noise, **{k: (dict(v) if isinstance(v, dict) else v) for k, v in kwargs.items()})
    if target.tobytes() != t0.tobytes() or noise.tobytes() != n0.tobytes():
        return Fail('input-modified', f'get_bf_vector({name!r}) changed a caller array')
    if spy.trace != expected_trace(name):
        return Fail('call-trace', f'get_bf_vector({name!r}) called {spy.trace}, the name spells {expected_trace(name)}')
    got, want = np.asarray(got), np.asarray(want)
    if got.shape != want.shape:
        return Fail('shape', f'get_bf_vector({name!r}) shape {got.shape}, composition {want.shape}')
    if not np.array_equal(got, want, equal_nan=True):
        return Fail('value', f'get_bf_vector({name!r}, kwargs={kwargs}) != composition of primitives '
                    f'(rel. {pu.rel_err(got, want):.3g})')
    if want2 is not None and r[1] == 'gev' and r[0] is not None:
        # a GEV eigenvector is defined up to a unit phase, which LAPACK fixes discontinuously: remove that gauge
        want2 = np.asarray(want2)
        ph = np.sum(np.conj(want2) * got, axis=-1, keepdims=True)
        want2 = want2 * np.where(np.abs(ph) > 0, ph / np.maximum(np.abs(ph), 1e-300), 1)
    if want2 is not None and pu.rel_err(got, np.asarray(want2)) > 1e-7:
        return Fail('value-vs-definition', f'get_bf_vector({name!r}, kwargs={kwargs}) differs from the composition with the '
                    f'rank-one / ATF pre-step written out from its definition by rel. {pu.rel_err(got, want2):.3g}')


@oracle
def apply_bf_is_inner_product(vector, mix):
    got = np.asarray(bfm.apply_beamforming_vector(vector, mix))
    lead = mix.shape[:-2]
    D, T = mix.shape[-2:]
    if got.shape != lead + (T,):
        return Fail('shape', f'shape {got.shape} != {lead + (T,)}')
    w = np.broadcast_to(vector, lead + (D,))
    for idx in np.ndindex(*lead):
        for t in range(T):
            ref = sum(np.conj(w[idx][d]) * mix[idx][d, t] for d in range(D))
            s = sum(abs(w[idx][d]) * abs(mix[idx][d, t]) for d in range(D))
            if abs(got[idx][t] - ref) > RTOL * s + 1e-300:
                return Fail('value', f'leading index {idx}, frame {t}: {got[idx][t]} != w^H x = {ref}')


def _cmp_slice(fn, idx, stacked, single):
    stacked, single = np.asarray(stacked), np.asarray(single)
    if stacked.shape != single.shape:
        return Fail(f'{fn}:slice-shape', f'{fn}: leading index {idx}: stacked slice shape {stacked.shape}, '
                    f'individual result {single.shape}')
    both_bad = ~np.isfinite(stacked) & ~np.isfinite(single)
    a = np.where(both_bad, 0, stacked)
    b = np.where(both_bad, 0, single)
    err = pu.rel_err(a, b)
    if err > RTOL:
        return Fail(f'{fn}:differs', f'{fn}: result at leading index {idx} of the stack differs from the result on the '
                    f'individual problem by rel. {err:.3g}')


def _call(fn, a, kw):
    """a: dict of arrays; returns the function value. `one` adds a length-1 leading axis to an individual problem."""
    if fn == 'get_pca_vector':
        return bfm.get_pca_vector(a['target'], **kw)
    if fn == 'get_mvdr_vector':
        return bfm.get_mvdr_vector(a['atf'], a['noise'])
    if fn == 'get_gev_vector':
        return bfm.get_gev_vector(a['target'], a['noise'], **kw)
    if fn == 'blind_analytic_normalization':
        return bfm.blind_analytic_normalization(a['vector'], a['noise'])
    if fn == 'phase_correction':
        return bfm.phase_correction(a['vector'])
    if fn == 'condition_covariance':
        return bfm.condition_covariance(a['target'], **kw)
    if fn == 'apply_beamforming_vector':
        return bfm.apply_beamforming_vector(a['vector'], a['mix'])
    if fn == 'get_mvdr_vector_souden':
        return bfm.get_mvdr_vector_souden(a['target'], a['noise'], **kw)
    if fn == 'get_wmwf_vector':
        return bfm.get_wmwf_vector(a['target'], a['noise'], **kw)
    if fn == 'get_pca_rank_one_estimate':
        return bw.get_pca_rank_one_estimate(a['target'], **kw)
    if fn == 'get_gev_rank_one_estimate':
        return bw.get_gev_rank_one_estimate(a['target'], a['noise'], **kw)
    if fn == 'get_power_spectral_density_matrix':
        return bfm.get_power_spectral_density_matrix(a['observation'], a.get('mask'), **kw)
    if fn == 'get_lcmv_vector':
        return bfm.get_lcmv_vector(a['atfs'], a['response'], a['noise'])
    if fn.startswith('get_bf_vector:'):
        return bw.get_bf_vector(fn.split(':', 1)[1], a['target'], a['noise'],
                                **{k: (dict(v) if isinstance(v, dict) else v) for k, v in kw.items()})
    raise KeyError(fn)


# number of trailing axes that belong to ONE problem, per argument / for the result
CORE_DIMS = {'target': 2, 'noise': 2, 'atf': 1, 'vector': 1, 'mix': 2, 'observation': 2, 'mask': 2}


def _core_dims(fn, name):
    if fn == 'phase_correction' and name == 'vector':
        return 2                      # (bins, sensors) is one problem
    return CORE_DIMS[name]


def _out_dims(fn):
    if fn in ('condition_covariance', 'get_pca_rank_one_estimate', 'get_gev_rank_one_estimate'):
        return 2
    if fn == 'phase_correction':
        return 2
    if fn == 'get_power_spectral_density_matrix':
        return 3
    return 1


@oracle
def stacked_equals_slices(fn, arrays, kwargs, regular):
    """f(stack)[idx] == f(stack[idx]) for every leading index idx; arguments with fewer leading axes (a noise PSD shared
    by all extra axes) are indexed by the trailing part of idx.  `regular` (bool per leading index, or None) restricts
    the value comparison to the indices whose matrices are regular."""
    if fn == 'get_lcmv_vector':
        return _lcmv_stacked(arrays)
    lead = None
    for k, v in arrays.items():
        ld = v.shape[:v.ndim - _core_dims(fn, k)]
        if lead is None or len(ld) > len(lead):
            lead = ld
    singles = {}
    for idx in np.ndindex(*lead):
        a = {}
        for k, v in arrays.items():
            nl = v.ndim - _core_dims(fn, k)
            a[k] = v[idx[len(idx) - nl:]][None]
        try:
            singles[idx] = np.asarray(_call(fn, a, kwargs))[0]
        except (np.linalg.LinAlgError, ValueError, AssertionError, IndexError, ZeroDivisionError) as e:
            if regular is None:
                raise            # regular inputs: every individual problem must have a result
            return Skip(f'individual problem is rejected ({type(e).__name__})')
    copies = {k: v.copy(order='K') for k, v in arrays.items()}
    try:
        stacked = np.asarray(_call(fn, arrays, kwargs))
    except Exception as e:  # noqa
        return Fail(f'{fn}:stacked-raises', f'{fn}: every individual problem has a result but the stack {lead} raises '
                    f'{type(e).__name__}: {str(e)[:120]}')
    for k, v in arrays.items():
        if v.tobytes() != copies[k].tobytes():
            return Fail(f'{fn}:input-modified', f'{fn} changed the caller\'s `{k}`')
    od = _out_dims(fn)
    if stacked.shape[:stacked.ndim - od] != lead:
        return Fail(f'{fn}:shape', f'{fn}: stacked result shape {stacked.shape} does not start with the leading shape {lead}')
    for idx in np.ndindex(*lead):
        if regular is not None and not regular[idx]:
            continue
        res = _cmp_slice(fn, idx, stacked[idx], singles[idx])
        if res is not None:
            return res


def _lcmv_stacked(arrays):
    atfs, resp, noise = arrays['atfs'], arrays['response'], arrays['noise']
    stacked = np.asarray(bfm.get_lcmv_vector(atfs, resp, noise))
    for f in range(noise.shape[0]):
        single = np.asarray(bfm.get_lcmv_vector(atfs[:, f:f + 1], resp, noise[f:f + 1]))[0]
        # the response vector is cast to complex64 by the library (DESIGN 5, item 12): single precision here
        if pu.rel_err(stacked[f], single) > 1e-5:
            return Fail('get_lcmv_vector:differs', f'get_lcmv_vector: bin {f} of the stack differs from the single-bin result '
                        f'by rel. {pu.rel_err(stacked[f], single):.3g}')


@oracle
def phase_correction_aligns(vector):
    """every leading index: w_f^H w_{f-1} real and non-negative, magnitudes unchanged, first bin unchanged"""
    v0 = vector.copy(order='K')
    got = np.asarray(bfm.phase_correction(vector))
    if vector.tobytes() != v0.tobytes():
        return Fail('input-modified', 'phase_correction changed the caller\'s array')
    if got.shape != v0.shape:
        return Fail('shape', f'shape {got.shape} != {v0.shape}')
    if not np.all(np.isfinite(got)):
        return Fail('non-finite', 'result contains inf/nan')
    lead = v0.shape[:-2]
    F = v0.shape[-2]
    for idx in np.ndindex(*lead):
        c, v = got[idx], v0[idx]
        mag = float(np.max(np.abs(np.abs(c) - np.abs(v))))
        if mag > RTOL * float(np.max(np.abs(v))) + 1e-300:
            return Fail('magnitude-changed', f'leading index {idx}: |w| changed by {mag:.3g}')
        if not np.array_equal(c[0], v[0]):
            return Fail('first-bin-changed', f'leading index {idx}: bin 0 was changed')
        for f in range(1, F):
            z = sum(np.conj(c[f, d]) * c[f - 1, d] for d in range(c.shape[-1]))
            s = float(np.linalg.norm(c[f]) * np.linalg.norm(c[f - 1]))
            if abs(z.imag) > RTOL * s + 1e-300 or z.real < -RTOL * s - 1e-300:
                return Fail('not-aligned', f'leading index {idx}, bins {f - 1},{f}: w_f^H w_(f-1) = {z} is not real '
                            f'non-negative (scale {s:.3g}); shape {v0.shape}')


def _sing_class(kind):
    return kind if kind in ('zero', 'dead-channel') else 'rank-deficient'


@oracle
def singular_psd_finite(fn, target, noise, target_regular, noise_regular, singular, ref, which, kind):
    """Souden MVDR / WMWF: finite for singular or zero PSD matrices; bins with regular matrices are unaffected by
    singular neighbours (same reference channel)."""
    where = f'{"noise" if which in ("noise", "both") else "target"}-{_sing_class(kind)}'

    def call(t, n, r):
        if fn == 'souden':
            return bfm.get_mvdr_vector_souden(t, n, ref_channel=r)
        return bfm.get_wmwf_vector(t, n, reference_channel=r)
    if ref is None and target.ndim != 3:
        return Skip('estimated reference channel needs (bins, sensors, sensors)')
    try:
        w = np.asarray(call(target, noise, ref))
    except Exception as e:  # noqa
        return Fail(f'{fn}:raises-{type(e).__name__}:{where}', f'{fn} (ref={ref}) raises {type(e).__name__} for finite PSD '
                    f'matrices with {int(np.sum(singular))} of {singular.size} bins made singular ({kind} {which}): '
                    f'{str(e)[:100]}')
    if not np.all(np.isfinite(w)):
        bad = np.argwhere(~np.isfinite(w).all(-1))
        return Fail(f'{fn}:non-finite:{where}', f'{fn} (ref={ref}) returns inf/nan at leading indices {bad[:4].tolist()} '
                    f'({kind} {which}, singular bins {np.argwhere(singular)[:6].tolist()})')
    if ref is not None and not np.all(singular):
        w0 = np.asarray(call(target_regular, noise_regular, ref))
        reg = ~singular
        err = pu.rel_err(w[reg], w0[reg])
        if err > (1e-3 if target.dtype == np.complex64 else 1e-7):
            return Fail(f'{fn}:regular-bin-affected:{where}', f'{fn}: regular bins change by rel. {err:.3g} when other '
                        f'bins are made singular')


@oracle
def stable_solve_is_isolated(A, B, singular):
    """regular matrices get the plain solution whatever the neighbours are; singular ones a finite least-squares one"""
    a0, b0 = A.copy(order='K'), B.copy(order='K')
    C = np.asarray(slv.stable_solve(A, B))
    if A.tobytes() != a0.tobytes() or B.tobytes() != b0.tobytes():
        return Fail('input-modified', 'stable_solve changed a caller array')
    if C.shape != B.shape:
        return Fail('shape', f'shape {C.shape} != {B.shape}')
    for idx in np.ndindex(*A.shape[:-2]):
        if not singular[idx]:
            ref = np.linalg.solve(A[idx], B[idx])
            err = pu.rel_err(C[idx], ref)
            if err > 1e-7:
                return Fail('regular-affected', f'matrix {idx} is regular but its solution differs from solve() by rel. '
                            f'{err:.3g} (singular neighbours: {int(np.sum(singular))})')
        else:
            if not np.all(np.isfinite(C[idx])):
                return Fail('singular-non-finite', f'matrix {idx} (exactly singular) has a non-finite solution')


# ----------------------------------------------------------------------------- generation
def all_names(D, rng=None):
    names = list(CORES) + ['ch0', f'ch{D - 1}']
    if rng is not None and D > 2:
        names.append(f'ch{int(rng.integers(0, D))}')
    return names + [n + '+ban' for n in names]


def gen_kwargs(rng, name, D, need_ref):
    """options a caller can pass for this name; explicit reference channels for the Souden / WMWF cores"""
    pre, main, ch, ban = read_name(name)
    kw = {}
    if main == 'pca' and rng.random() < 0.6:
        kw['scaling'] = [None, 'trace', 'eigenvalue'][int(rng.integers(3))]
    if main == 'souden' and (need_ref or rng.random() < 0.6):
        kw['ref_channel'] = int(rng.integers(D))
    if main == 'wmwf':
        if need_ref or rng.random() < 0.6:
            kw['reference_channel'] = int(rng.integers(D))
        if rng.random() < 0.3:
            kw['distortion_weight'] = float(rng.choice([0.5, 2.0, 10.0]))
    if main == 'gev' and rng.random() < 0.2:
        kw['use_eig'] = False
    if pre in ('atf_pca', 'rank1_pca') and rng.random() < 0.4:
        kw['atf_kwargs'] = {'scaling': [None, 'trace', 'eigenvalue'][int(rng.integers(3))]}
    if pre in ('atf_gev', 'rank1_gev') and rng.random() < 0.2:
        kw['atf_kwargs'] = {'use_eig': False}
    return kw


def gen_psd_pair(rng, lead, D):
    """target / noise PSD stacks with DIFFERENT content per leading index"""
    return pu.hpd_stack(rng, lead, D), pu.hpd_stack(rng, lead, D)


def gen_shape(rng, tier, small):
    nextra = int(rng.integers(0, 3))
    extra = tuple(int(rng.integers(1, 4)) for _ in range(nextra))
    if small:
        F, D = int(rng.integers(1, 5)), int(rng.integers(2, 5))
    else:
        F, D = int(rng.integers(1, 33)), int(rng.integers(2, 9))
    return extra, F, D


def gen_vector_stack(rng, extra, F, D):
    """beamforming vectors (…, F, D) for phase_correction, with the degenerate bins the predicate must survive"""
    v = pu.cnormal(rng, extra + (F, D))
    kind = str(rng.choice(['normal', 'normal', 'smooth', 'zero-bin', 'orthogonal', 'negated', 'real', 'scaled']))
    if kind == 'smooth':
        base = pu.cnormal(rng, extra + (1, D))
        v = base * np.exp(1j * rng.uniform(0, 2 * np.pi, size=extra + (F, 1))) + 0.1 * v
    elif kind == 'zero-bin':
        v[..., int(rng.integers(F)), :] = 0
    elif kind == 'orthogonal' and F >= 2:
        f = int(rng.integers(1, F))
        a = v[..., f - 1, :]
        b = v[..., f, :]
        v[..., f, :] = b - a * (np.sum(np.conj(a) * b, -1) / np.sum(np.abs(a) ** 2, -1))[..., None]
    elif kind == 'negated':
        v = v * rng.choice([-1.0, 1.0], size=extra + (F, 1))
    elif kind == 'real':
        v = v.real + 0j
    elif kind == 'scaled':
        v = v * 10.0 ** float(rng.integers(-100, 101))
    return np.ascontiguousarray(v), kind


def make_singular(rng, target, noise, n_fixed_lead=0):
    """copy of (target, noise) with a random non-empty subset of the leading indices made singular / zero"""
    lead = target.shape[:-2]
    D = target.shape[-1]
    kind = str(rng.choice(pu.SINGULAR_KINDS))
    which = str(rng.choice(['noise', 'target', 'both']))
    sing = rng.random(lead) < rng.choice([0.2, 0.5, 1.0])
    if not sing.any():
        sing[tuple(int(rng.integers(s)) for s in lead)] = True
    t2, n2 = target.copy(order='K'), noise.copy(order='K')
    for idx in np.argwhere(sing):
        idx = tuple(idx)
        if which in ('noise', 'both'):
            n2[idx] = pu.singular_psd(rng, D, kind)
        if which in ('target', 'both'):
            t2[idx] = pu.singular_psd(rng, D, kind)
    return t2, n2, sing, which, kind


STACK_FUNCS = ['get_pca_vector', 'get_mvdr_vector', 'get_mvdr_vector:shared-noise', 'get_gev_vector',
               'blind_analytic_normalization', 'phase_correction', 'condition_covariance', 'apply_beamforming_vector',
               'get_mvdr_vector_souden', 'get_wmwf_vector', 'get_pca_rank_one_estimate', 'get_gev_rank_one_estimate',
               'get_power_spectral_density_matrix', 'get_lcmv_vector', 'get_bf_vector']


def gen_stack_case(rng, which, extra, F, D):
    """(fn, arrays, kwargs) for the stacked-vs-individual comparison; content differs per leading index"""
    lead = extra + (F,)
    kw = {}
    if which == 'get_pca_vector':
        kw = {'scaling': [None, 'trace', 'eigenvalue'][int(rng.integers(3))]}
        return which, {'target': pu.hpd_stack(rng, lead, D)}, kw
    if which == 'get_mvdr_vector':
        return which, {'atf': pu.cnormal(rng, lead + (D,)), 'noise': pu.hpd_stack(rng, lead, D)}, kw
    if which == 'get_mvdr_vector:shared-noise':
        # documented shapes: atf (..., bins, sensors), noise (bins, sensors, sensors)
        return 'get_mvdr_vector', {'atf': pu.cnormal(rng, lead + (D,)), 'noise': pu.hpd_stack(rng, (F,), D)}, kw
    if which == 'get_gev_vector':
        t, n = gen_psd_pair(rng, lead, D)
        return which, {'target': t, 'noise': n}, ({'use_eig': False} if rng.random() < 0.3 else {})
    if which == 'blind_analytic_normalization':
        return which, {'vector': pu.cnormal(rng, lead + (D,)), 'noise': pu.hpd_stack(rng, lead, D)}, kw
    if which == 'phase_correction':
        v, _ = gen_vector_stack(rng, extra, F, D)
        return which, {'vector': v}, kw
    if which == 'condition_covariance':
        return which, {'target': pu.hpd_stack(rng, lead, D)}, {'gamma': float(10 ** rng.uniform(-4, 1))}
    if which == 'apply_beamforming_vector':
        T = int(rng.integers(1, 6))
        return which, {'vector': pu.cnormal(rng, lead + (D,)), 'mix': pu.cnormal(rng, lead + (D, T))}, kw
    if which in ('get_mvdr_vector_souden', 'get_wmwf_vector'):
        t, n = gen_psd_pair(rng, lead, D)
        key = 'ref_channel' if which == 'get_mvdr_vector_souden' else 'reference_channel'
        return which, {'target': t, 'noise': n}, {key: int(rng.integers(D))}
    if which == 'get_pca_rank_one_estimate':
        return which, {'target': pu.hpd_stack(rng, lead, D)}, kw
    if which == 'get_gev_rank_one_estimate':
        t, n = gen_psd_pair(rng, lead, D)
        return which, {'target': t, 'noise': n}, kw
    if which == 'get_power_spectral_density_matrix':
        T = int(rng.integers(1, 8))
        K = int(rng.integers(1, 4))
        return which, {'observation': pu.cnormal(rng, lead + (D, T)), 'mask': rng.random(lead + (K, T))}, kw
    if which == 'get_lcmv_vector':
        K = int(rng.integers(1, min(D, 3) + 1))
        resp = np.zeros(K)
        resp[int(rng.integers(K))] = 1
        return which, {'atfs': pu.cnormal(rng, (K, F, D)), 'response': resp, 'noise': pu.hpd_stack(rng, (F,), D)}, kw
    if which == 'get_bf_vector':
        names = all_names(D, rng)
        name = names[int(rng.integers(len(names)))]
        t, n = gen_psd_pair(rng, lead, D)
        return f'get_bf_vector:{name}', {'target': t, 'noise': n}, gen_kwargs(rng, name, D, need_ref=True)
    raise KeyError(which)


def search(ctx):
    rng = ctx.rng
    # (0) configurations of the fixed defects: e74d97d (phase_correction with a leading axis and > 2 bins),
    #     63825a3 (get_mvdr_vector with stacked bins)
    v = pu.cnormal(rng, (3, 5, 4))
    ctx.run(phase_correction_aligns, vector=v)
    ctx.run(stacked_equals_slices, fn='phase_correction', arrays={'vector': v}, kwargs={}, regular=None)
    ctx.run(stacked_equals_slices, fn='get_mvdr_vector',
            arrays={'atf': pu.cnormal(rng, (6, 3)), 'noise': pu.hpd_stack(rng, (6,), 3)}, kwargs={}, regular=None)
    t, n = gen_psd_pair(rng, (6,), 3)
    ctx.run(bf_vector_is_composition, name='pca+mvdr', target=t, noise=n, kwargs={})
    # (1) every accepted name, with and without '+ban', explicit / estimated reference channels, 0..2 extra axes
    reps = ctx.n(6, 60)
    for rep in range(reps):
        for nextra in (0, 1, 2):
            extra = tuple(int(rng.integers(1, 4)) for _ in range(nextra))
            F, D = int(rng.integers(1, 9 if rep else 4)), int(rng.integers(2, 9 if rep else 4))
            t, n = gen_psd_pair(rng, extra + (F,), D)
            for name in all_names(D, rng):
                if ctx.out_of_time(reserve=60):
                    break
                kw = gen_kwargs(rng, name, D, need_ref=(nextra > 0))
                ctx.count(f'search-name:{name}')
                ok = ctx.run(bf_vector_is_composition, name=name, target=t, noise=n, kwargs=kw)
                if rep == 0 and nextra == 1 and name in ('rank1_gev+mvdr_souden+ban', 'pca+mvdr'):
                    ctx.sample({'oracle': 'bf_vector_is_composition', 'name': name, 'kwargs': kw, 'shape': list(t.shape),
                                'held': ok})
    # (2) stacked vs individual problems, every beamforming function, different content per index
    n_cases = ctx.n(900, 12000)
    for i in range(n_cases):
        if ctx.out_of_time(reserve=45):
            break
        extra, F, D = gen_shape(rng, ctx.tier, small=(i < n_cases * 2 // 3))
        which = STACK_FUNCS[i % len(STACK_FUNCS)]
        fn, arrays, kw = gen_stack_case(rng, which, extra, F, D)
        ctx.count(f'search-stack:{which}')
        ctx.count(f'search-stack-extra-axes:{len(extra)}')
        ok = ctx.run(stacked_equals_slices, fn=fn, arrays=arrays, kwargs=kw, regular=None)
        if i in (1, 5):
            ctx.sample({'oracle': 'stacked_equals_slices', 'fn': fn, 'kwargs': kw,
                        'shapes': {k: list(v.shape) for k, v in arrays.items()}, 'held': ok})
    # (3) apply_beamforming_vector = w^H x per leading index; phase alignment predicate
    for i in range(ctx.n(500, 6000)):
        if ctx.out_of_time(reserve=35):
            break
        extra, F, D = gen_shape(rng, ctx.tier, small=(i % 3 != 0))
        T = int(rng.integers(1, 7))
        w = pu.cnormal(rng, extra + (F, D))
        x = pu.cnormal(rng, extra + (F, D, T))
        if rng.random() < 0.2 and extra:
            w = w[(0,) * len(extra)]                      # one vector set shared by all extra axes (broadcast)
        ctx.run(apply_bf_is_inner_product, vector=w, mix=x)
        v, kind = gen_vector_stack(rng, extra, F, D)
        ctx.count(f'search-phase:{kind}')
        ctx.count(f'search-phase-extra-axes:{len(extra)}')
        ok = ctx.run(phase_correction_aligns, vector=v)
        if i == 0:
            ctx.sample({'oracle': 'phase_correction_aligns', 'shape': list(v.shape), 'kind': kind, 'held': ok})
    # (4) singular / zero PSD matrices: finiteness and isolation of the regular bins
    for i in range(ctx.n(900, 12000)):
        if ctx.out_of_time(reserve=15):
            break
        extra, F, D = gen_shape(rng, ctx.tier, small=(i % 2 == 0))
        fn = ['souden', 'wmwf'][i % 2]
        lead = extra + (F,)
        t, n = gen_psd_pair(rng, lead, D)
        if rng.random() < 0.3:
            # real-dtype noise PSD (e.g. a diffuse-noise model) with a complex target PSD: mixed dtypes in the solves
            n = np.ascontiguousarray(n.real)
            ctx.count('search-singular-dtype:real-noise')
        if rng.random() < 0.35:
            # absolute level of the recording (PSDs of a quiet / loud signal): the results are scale invariant
            lvl = float(10.0 ** rng.uniform(-14, 10))
            t, n = t * lvl, n * lvl
            ctx.count('search-singular-level:1e%d' % int(np.floor(np.log10(lvl))))
        t2, n2, sing, which, kind = make_singular(rng, t, n)
        if kind == 'zero' and max(float(np.max(np.abs(t))), float(np.max(np.abs(n)))) < 1e6 \
                and min(float(np.max(np.abs(t))), float(np.max(np.abs(n)))) > 1e-6 and rng.random() < 0.4:
            # single-precision PSD matrices (complex64 STFT): a zero bin must still give a finite (zero) beamformer
            t, n, t2, n2 = (x.astype(np.complex64) for x in (t, n, t2, n2))
            ctx.count('search-singular-dtype:complex64')
        ref = int(rng.integers(D)) if (extra or rng.random() < 0.6) else None
        ctx.count(f'search-singular:{fn}:{which}:{kind}')
        ctx.count(f'search-singular-ref:{"explicit" if ref is not None else "estimated"}')
        ok = ctx.run(singular_psd_finite, fn=fn, target=t2, noise=n2, target_regular=t, noise_regular=n, singular=sing,
                     ref=ref, which=which, kind=kind)
        if i < 2:
            ctx.sample({'oracle': 'singular_psd_finite', 'fn': fn, 'shape': list(t.shape), 'singular_bins': int(sing.sum()),
                        'which': which, 'kind': kind, 'ref': ref, 'held': ok})
        # stable_solve itself: exactly singular matrices (LAPACK reports them) among regular ones
        A = pu.hpd_stack(rng, lead, D)
        B = pu.cnormal(rng, lead + (D, D))
        s2 = rng.random(lead) < 0.4
        for idx in np.argwhere(s2):
            A[tuple(idx)] = pu.singular_psd(rng, D, str(rng.choice(['zero', 'dead-channel'])))
        if rng.random() < 0.35:
            lv = float(10.0 ** rng.uniform(-14, 10))
            A = A * lv
            B = B * float(10.0 ** rng.uniform(-14, 10))
        dkind = str(rng.choice(['complex/complex', 'complex/complex', 'real/complex', 'real/real', 'complex/real']))
        if dkind.startswith('real'):
            A = np.ascontiguousarray(A.real)
        if dkind.endswith('real'):
            B = np.ascontiguousarray(B.real)
        ctx.count(f'search-stable-solve-dtypes:{dkind}')
        ctx.run(stable_solve_is_isolated, A=A, B=B, singular=s2)
        # get_mvdr_vector falls back to least squares for singular noise matrices: the stack must not raise when every
        # individual problem has a result, and the regular bins must agree
        if i % 4 == 1:
            sb = rng.random(F) < 0.4
            if not sb.any():
                sb[int(rng.integers(F))] = True
            nz = pu.hpd_stack(rng, (F,), D)
            for f in np.argwhere(sb)[:, 0]:
                nz[f] = pu.singular_psd(rng, D, str(rng.choice(['zero', 'dead-channel'])))
            ctx.count(f'search-singular:mvdr:extra-axes-{len(extra)}')
            ctx.run(stacked_equals_slices, fn='get_mvdr_vector', arrays={'atf': pu.cnormal(rng, lead + (D,)), 'noise': nz},
                    kwargs={}, regular=np.broadcast_to(~sb, lead).copy(order='K'))
            if len(lead) > 1:
                # the noise PSD carries every leading axis itself (one noise matrix per problem AND bin), singular at a few
                # full indices: the fallback must pair problem k's steering vectors with problem k's noise matrices
                nfull = pu.hpd_stack(rng, lead, D)
                sfull = rng.random(lead) < 0.25
                if not sfull.any():
                    sfull[tuple(int(rng.integers(n)) for n in lead)] = True
                for idx in np.argwhere(sfull):
                    nfull[tuple(idx)] = pu.singular_psd(rng, D, str(rng.choice(['zero', 'dead-channel'])))
                ctx.count('search-singular:mvdr:noise-with-leading-axes')
                ctx.run(stacked_equals_slices, fn='get_mvdr_vector',
                        arrays={'atf': pu.cnormal(rng, lead + (D,)), 'noise': nfull}, kwargs={}, regular=~sfull)
        # stacked vs individual with singular bins: only regular indices are compared, the stack must not raise
        if i % 3 == 0:
            key = 'ref_channel' if fn == 'souden' else 'reference_channel'
            ctx.run(stacked_equals_slices, fn='get_mvdr_vector_souden' if fn == 'souden' else 'get_wmwf_vector',
                    arrays={'target': t2, 'noise': n2}, kwargs={key: int(rng.integers(D))}, regular=~sing)


# ----------------------------------------------------------------------------- correspondence
def _names_for_dispatch(rng, n_random):
    """accepted names, near misses, and random strings over the alphabet of the accepted names"""
    names = []
    for core in list(CORES):
        names += [core, core + '+ban', core + '+ban+ban', core + '+', '+' + core, core.upper(), core + ' ',
                  core.replace('+', '++'), 'ban+' + core, core + '+BAN']
    names += ['ch0', 'ch7', 'ch12', 'ch007', 'ch', 'ch+ban', 'ch1+ban', 'chx', 'ch1x', 'xch1', 'c1', 'hc1', 'ch-1', 'ch1.0',
              'ch 1', '1ch', 'chch1', 'ch1ch', '', '+ban', 'ban', 'lcmv', 'lcmv+ban', 'rank1_gev+lcmv', 'xlcmvx', 'chlcmv1',
              'mvdr', 'gev_ban', 'rank1_pca', 'rank1_gev', 'rank1_pca+pca', 'rank1_pca+mvdr', 'pca+gev', 'pca+wmwf',
              'scaled_gev_atf', 'scaled_gev_atf+gev', 'rank1_gev+pca+mvdr', 'pca+mvdr_souden', 'wmwf+mvdr']
    toks = ['pca', 'gev', 'mvdr', 'mvdr_souden', 'wmwf', 'rank1_pca', 'rank1_gev', 'scaled_gev_atf', 'ban', 'ch', '1', '23',
            'lcmv', '', 'x']
    for _ in range(n_random):
        k = int(rng.integers(1, 4))
        names.append('+'.join(toks[int(rng.integers(len(toks)))] for _ in range(k)))
    seen, out = set(), []
    for nm in names:
        if nm not in seen and all(32 <= ord(c) < 127 for c in nm):
            seen.add(nm)
            out.append(nm)
    return out


def _code_dispatch(name, D=20):
    """what the real get_bf_vector does with `name`: (accepted?, call trace, channel index or -1)"""
    t = np.stack([np.eye(D, dtype=np.complex128) * (2 + f) + 0.1 for f in range(2)])
    n = np.stack([np.eye(D, dtype=np.complex128) * (1 + f) for f in range(2)])
    with Spy() as spy:
        try:
            w = bw.get_bf_vector(name, t, n)
        except (ValueError, AssertionError):
            return False, [], -1
        except IndexError:
            return True, list(spy.trace), 10 ** 9            # 'chN' with N >= D: accepted name, index out of range
    ch = -1
    if not [p for p in spy.trace if p != 'blind_analytic_normalization']:
        ch = int(np.argmax(np.abs(np.asarray(w)[0])))
    return True, list(spy.trace), ch


def _sname(name):
    return ' '.join(str(ord(c)) for c in name)


def corr(ctx):
    rng = ctx.rng
    # (1) dispatch: exact
    names = _names_for_dispatch(rng, ctx.n(300, 5000))
    out = run_driver([f'dispatch {len(nm)} {_sname(nm)}' for nm in names], exe='driver_psd')
    for nm, o in zip(names, out):
        acc, trace, ch = _code_dispatch(nm)
        got = parse_ints(o)
        # driver: accepted(0/1) channel(-1 -> 0 with flag) ... : "acc hasch ch ntrace codes..."
        g_acc, g_hasch, g_ch = bool(got[0]), bool(got[1]), int(got[2])
        g_trace = [PRIMS[c - 1] for c in got[4:4 + got[3]]]
        ok = (g_acc == acc) and (not acc or (g_trace == trace and (g_hasch == (ch >= 0))
                                             and (not g_hasch or ch == 10 ** 9 or g_ch == ch)))
        if acc and ch == 10 ** 9:
            ok = g_acc and g_hasch and g_ch >= 20
        ctx.corr('get_bf_vector-dispatch', ok, f'name {nm!r}: code accepted={acc} trace={trace} ch={ch}; '
                 f'model accepted={g_acc} trace={g_trace} ch={g_ch if g_hasch else None}', {'name': nm})
        ctx.count('corr-dispatch-accepted' if acc else 'corr-dispatch-rejected')
    ctx.sample({'op': 'dispatch', 'names': names[:4] + names[-3:]})
    # (2) apply_beamforming_vector, phase_correction: stacked arrays vs model
    lines, metas = [], []
    for i in range(ctx.n(150, 3000)):
        extra, F, D = gen_shape(rng, ctx.tier, small=(i % 4 != 0))
        L = int(np.prod(extra, dtype=np.int64))
        T = int(rng.integers(1, 6))
        w = pu.cnormal(rng, extra + (F, D))
        x = pu.cnormal(rng, extra + (F, D, T))
        lines.append(f'applybf {L * F} {D} {T} {cbits(w)} {cbits(x)}')
        metas.append(('apply_beamforming_vector', np.asarray(bfm.apply_beamforming_vector(w, x)), {'vector': w, 'mix': x}))
        v, kind = gen_vector_stack(rng, extra, F, D)
        if kind == 'scaled':
            v, kind = pu.cnormal(rng, extra + (F, D)), 'normal'
        lines.append(f'phase {L} {F} {D} {cbits(v)}')
        metas.append(('phase_correction', np.asarray(bfm.phase_correction(v)), {'vector': v}))
        # the same through the full-array model that takes the shape and does its own axis arithmetic
        shape = ' '.join(str(s) for s in v.shape)
        lines.append(f'phasefull {v.ndim} {shape} {cbits(v)}')
        metas.append(('phase_correction-full', np.asarray(bfm.phase_correction(v)), {'vector': v}))
        if i % 5 == 0:
            # the model of the PRE-FIX source line (cumprod(..., axis=0), refuted by theorem cumprod_axis0_not_per_index)
            # against that line written out here: ties the negative theorem to the defect that was fixed in e74d97d
            old = np.array(v, copy=True)
            old[..., 1:, :] *= np.cumprod(np.exp(1j * np.angle(np.sum(
                old[..., 1:, :].conj() * old[..., :-1, :], axis=-1, keepdims=True))), axis=0)
            lines.append(f'phaseaxis0 {v.ndim} {shape} {cbits(v)}')
            metas.append(('phase_correction-axis0-model-vs-prefix-line', old, {'vector': v}))
        ctx.count(f'corr-phase:{kind}')
    out = run_driver(lines, exe='driver_psd')
    for (op, want, data), o in zip(metas, out):
        got = parse_complex(o)
        ok = got.size == want.size
        err = pu.rel_err(got.reshape(want.shape), want) if ok else np.inf
        if ok and err > RTOL and op.startswith('phase_correction'):
            # the phasor exp(i angle(z)) is a discontinuous decision at z = 0: when |w_f^H w_(f-1)| is rounding noise
            # relative to the norms, its phase depends on the summation order
            v = data['vector']
            z = np.abs(np.sum(v[..., 1:, :].conj() * v[..., :-1, :], -1))
            nn = np.linalg.norm(v[..., 1:, :], axis=-1) * np.linalg.norm(v[..., :-1, :], axis=-1)
            if np.any((z < 1e-9 * nn) & (nn > 0)):
                ctx.count(f'tie-within-rounding:{op}')
                continue
        ctx.corr(op, bool(ok and err <= RTOL), f'{op}: model vs code rel. {err:.3g}, shapes '
                 f'{ {k: v.shape for k, v in data.items()} }', data)
    # (3) stable_solve: decision tree over the outcomes of the real solve / lstsq calls
    lines, metas = [], []
    for i in range(ctx.n(500, 6000)):
        nlead = int(rng.integers(0, 3))
        lead = tuple(int(rng.integers(1, 4)) for _ in range(nlead))
        D = int(rng.integers(1, 5))
        R = int(rng.integers(1, 4)) if rng.random() < 0.5 else D
        A = pu.hpd_stack(rng, lead, D) if rng.random() < 0.7 else pu.cnormal(rng, lead + (D, D))
        B = pu.cnormal(rng, lead + (D, R))
        s = rng.random(lead) < rng.choice([0.0, 0.3, 1.0])
        for idx in np.argwhere(s):
            A[tuple(idx)] = pu.singular_psd(rng, D, 'zero' if D == 1 else str(rng.choice(['zero', 'dead-channel'])))
        n = int(np.prod(lead, dtype=np.int64))
        A2, B2 = A.reshape(n, D, D), B.reshape(n, D, R)
        flags, sol, lsq = [], np.zeros((n, D, R), complex), np.zeros((n, D, R), complex)
        for j in range(n):
            try:
                sol[j] = np.linalg.solve(A2[j], B2[j])
                flags.append(0)
            except np.linalg.LinAlgError:
                flags.append(1)
            lsq[j] = np.linalg.lstsq(A2[j], B2[j], rcond=None)[0]
        want = np.asarray(slv.stable_solve(A, B))
        lines.append(f'stablesolve {n} {D * R} {" ".join(map(str, flags))} {cbits(sol)} {cbits(lsq)}')
        metas.append((want, A, B, flags))
        ctx.count(f'corr-stable-solve-singular:{min(sum(flags), 2)}{"+" if sum(flags) > 2 else ""}')
    out = run_driver(lines, exe='driver_psd')
    for (want, A, B, flags), o in zip(metas, out):
        got = parse_complex(o)
        ok = got.size == want.size
        err = pu.rel_err(got.reshape(want.shape), want) if ok else np.inf
        ctx.corr('stable_solve', bool(ok and err <= RTOL), f'decision tree vs stable_solve rel. {err:.3g}; singular flags '
                 f'{flags}', {'A': A, 'B': B})

"""C10 - PSD estimate is the mask-weighted mean outer product; condition_covariance."""
import numpy as np

from .. import psd_util as pu
from .. import gen
from ..core import Fail, Skip, oracle
from ..lean import cbits, fbits, parse_complex, run_driver

ID = 'C10'
DRIVERS = ('driver_psd',)
THEOREMS = [
    'PbBss.C10.psd_value',
    'PbBss.C10.psd_value_unnormalized',
    'PbBss.C10.psd_value_nomask',
    'PbBss.C10.psd_bool_mask',
    'PbBss.C10.psd_hermitian',
    'PbBss.C10.psd_nomask_hermitian',
    'PbBss.C10.psd_posSemidef',
    'PbBss.C10.psd_nomask_posSemidef',
    'PbBss.C10.psd_scale_invariant',
    'PbBss.C10.psd_zero_mask',
    'PbBss.C10.psd_layout_source',
    'PbBss.C10.psd_layout_plain',
    'PbBss.C10.psd_layout_nomask',
    'PbBss.C10.psd_layout_bool',
    'PbBss.C10.condition_cov_formula',
    'PbBss.C10.condition_cov_trace',
    'PbBss.C10.condition_cov_hermitian',
    'PbBss.C10.condition_cov_posSemidef',
]
ASSUMPTIONS = [
    'theorems are over R/C: rounding, overflow and underflow of the float evaluation are outside them (observations up '
    'to 1e+-100 are exercised by the search only)',
    'the mask floor 1e-10 is a literal of the source and is passed to the model explicitly; the theorems hold for every '
    'floor >= 0, the rescaling theorem needs sum(m) >= floor and c*sum(m) >= floor (below the floor the code divides by '
    'the floor, which the oracle follows)',
    'axis handling (sensor_dim/source_dim/time_dim, rollaxis) is modelled on index functions (PbBss.Psd.psdFull, theorem '
    'psd_layout_source/plain/nomask); NumPy transpose/einsum/rollaxis semantics themselves are modelled, not verified',
    'float32 masks are compared at single precision (1e-5)',
]

from pb_bss.extraction import beamformer as bfm  # noqa: E402

PSD = bfm.get_power_spectral_density_matrix
RTOL = 1e-9


def _tol(mask, observation=None):
    single = (mask is not None and mask.dtype == np.float32) or (observation is not None and observation.dtype == np.complex64)
    return 1e-5 if single else RTOL


def _canon(observation, mask, sensor_dim, source_dim, time_dim):
    """canonical views + the position where the source axis of the result is documented to be"""
    n = observation.ndim
    ps, pq, pt = sensor_dim % n, source_dim % n, time_dim % n
    obs_c = pu.layout_to_canon(observation, ps, pt)
    if mask is None:
        return obs_c, None, None
    if mask.ndim == n - 1:
        return obs_c, mask, None
    mask_c = pu.layout_to_canon(mask, pq, pt)
    # documented: (sources, ..., sensors, sensors) when the source axis is addressed in front of the last two axes
    kpos = pq if pq - n < -2 else None
    return obs_c, mask_c, kpos


def _expected(observation, mask, sensor_dim, source_dim, time_dim, normalize):
    obs_c, mask_c, kpos = _canon(observation, mask, sensor_dim, source_dim, time_dim)
    if obs_c.dtype == np.complex64:      # the reference is evaluated in double precision on the same values
        obs_c = obs_c.astype(np.complex128)
    ref = pu.ref_psd(obs_c, mask_c, normalize)
    if kpos is not None:
        ref = np.moveaxis(ref, -3, kpos)
    return ref, kpos


def _in_domain(observation, mask, sensor_dim, source_dim, time_dim):
    n = observation.ndim
    ps, pq, pt = sensor_dim % n, source_dim % n, time_dim % n
    if ps == pt:
        return 'sensor_dim == time_dim'
    if mask is not None:
        if mask.ndim == n - 1:
            if pt != n - 1:
                return 'time_dim != -1 with a mask that has no source axis'
        elif mask.ndim == n:
            if pq == pt:
                return 'source_dim == time_dim'
        else:
            return 'mask rank'
        if mask.dtype != bool and not np.issubdtype(mask.dtype, np.floating):
            return 'mask dtype'
        if np.any(mask < 0):
            return 'negative mask'
    return None


def _per_matrix_err(got, ref):
    """max over matrices of max|got-ref| / max|ref| (exact zero required where ref is the zero matrix)"""
    g = got.reshape((-1,) + got.shape[-2:])
    r = ref.reshape((-1,) + ref.shape[-2:])
    worst = 0.0
    for i in range(g.shape[0]):
        s = float(np.max(np.abs(r[i]))) if r[i].size else 0.0
        d = float(np.max(np.abs(g[i] - r[i]))) if r[i].size else 0.0
        if d == 0:
            continue
        if s == 0 or not np.isfinite(d):
            return np.inf
        worst = max(worst, d / s)
    return worst


# ----------------------------------------------------------------------------- oracles on the real code
@oracle
def psd_is_defining_sum(observation, mask, sensor_dim, source_dim, time_dim, normalize, memory='c'):
    """value, shape, Hermitian, positive semidefinite, zero mask -> zero, caller arrays untouched;
    `memory`: memory layout of the caller's arrays (harness/gen.relayout)"""
    why = _in_domain(observation, mask, sensor_dim, source_dim, time_dim)
    if why:
        return Skip(why)
    if memory != 'c':
        observation = gen.relayout(observation, memory)
        mask = None if mask is None else gen.relayout(mask, memory)
    obs0, mask0 = np.array(observation, order='C'), (None if mask is None else np.array(mask, order='C'))
    got = PSD(observation, mask, sensor_dim=sensor_dim, source_dim=source_dim, time_dim=time_dim, normalize=normalize)
    if np.array(observation, order='C').tobytes() != obs0.tobytes() or observation.shape != obs0.shape:
        return Fail('observation-modified', 'the caller\'s observation array was changed by the call')
    if mask is not None and (np.array(mask, order='C').tobytes() != mask0.tobytes() or mask.dtype != mask0.dtype):
        return Fail('mask-modified', 'the caller\'s mask array was changed by the call')
    ref, kpos = _expected(obs0, mask0, sensor_dim, source_dim, time_dim, normalize)
    got = np.asarray(got)
    if got.shape != ref.shape:
        return Fail('shape', f'result shape {got.shape}, defining sum has shape {ref.shape} (obs {obs0.shape}, mask '
                    f'{None if mask0 is None else mask0.shape}, dims {(sensor_dim, source_dim, time_dim)})')
    if not np.all(np.isfinite(got)):
        return Fail('non-finite', 'result contains inf/nan for finite inputs')
    err = _per_matrix_err(got, ref)
    if err > _tol(mask0, obs0):
        return Fail('value', f'differs from sum_t w[t] x[t] x[t]^H (w = m/max(sum m, 1e-10), m, or 1/T): rel. error {err:.3g}; '
                    f'obs {obs0.shape} mask {None if mask0 is None else (mask0.shape, str(mask0.dtype))} '
                    f'dims {(sensor_dim, source_dim, time_dim)} normalize={normalize}')
    gc = got if kpos is None else np.moveaxis(got, kpos, -3)
    herm = pu.rel_err(gc, np.conj(np.swapaxes(gc, -1, -2)))
    if herm > _tol(None, obs0):
        return Fail('not-hermitian', f'result is not Hermitian: rel. asymmetry {herm:.3g}')
    ev = np.linalg.eigvalsh((gc + np.conj(np.swapaxes(gc, -1, -2))) / 2)
    scale = np.max(np.abs(ev), axis=-1) if ev.size else np.zeros(())
    if ev.size and np.any(ev[..., 0] < -_tol(None, obs0) * scale - 1e-300):
        return Fail('not-psd', f'negative eigenvalue {float(np.min(ev))} for a non-negative mask')
    # read-only inputs: an in-place write would raise
    o2 = obs0.copy(order='K')
    o2.setflags(write=False)
    m2 = None
    if mask0 is not None:
        m2 = mask0.copy(order='K')
        m2.setflags(write=False)
    try:
        PSD(o2, m2, sensor_dim=sensor_dim, source_dim=source_dim, time_dim=time_dim, normalize=normalize)
    except ValueError as e:
        if 'read-only' in str(e):
            return Fail('writes-to-input', f'call on read-only inputs raised: {e}')
        raise


@oracle
def psd_rescaling_invariant(observation, mask, c, sensor_dim, source_dim, time_dim):
    """normalize=True: psd(x, c*m) == psd(x, m) for c > 0 as long as both mask sums are >= 1e-10"""
    why = _in_domain(observation, mask, sensor_dim, source_dim, time_dim)
    if why or mask is None or mask.dtype == bool or c <= 0:
        return Skip(why or 'no float mask')
    n = observation.ndim
    s = np.sum(mask.astype(np.float64), axis=(time_dim % n) - n)
    if np.any(s < pu.FLOOR * 1.000001) or np.any(c * s < pu.FLOOR * 1.000001):
        return Skip('mask sum below the normalisation floor')
    a = PSD(observation, mask, sensor_dim=sensor_dim, source_dim=source_dim, time_dim=time_dim, normalize=True)
    b = PSD(observation, (mask * mask.dtype.type(c)), sensor_dim=sensor_dim, source_dim=source_dim, time_dim=time_dim,
            normalize=True)
    err = _per_matrix_err(np.asarray(b), np.asarray(a))
    if err > 10 * _tol(mask, observation):
        return Fail('rescaling-changes-result', f'psd(x, {c}*m) differs from psd(x, m) by rel. {err:.3g}')


@oracle
def psd_layouts_agree(observation_c, mask_c, layouts, normalize):
    """the same canonical data presented in several axis layouts gives the same matrices"""
    first = None
    n = observation_c.ndim
    for (ps, pq, pt, neg) in layouts:
        obs = np.ascontiguousarray(pu.canon_to_layout(observation_c, ps, pt))
        if mask_c is None:
            mask = None
        elif mask_c.ndim == n - 1:
            if pt != n - 1:
                continue
            mask = mask_c
        else:
            mask = np.ascontiguousarray(pu.canon_to_layout(mask_c, pq, pt))
        o = n if neg else 0
        got = np.asarray(PSD(obs, mask, sensor_dim=ps - o, source_dim=pq - o, time_dim=pt - o, normalize=normalize))
        if mask is not None and mask.ndim == n and pq - n < -2:
            got = np.moveaxis(got, pq, -3)
        if first is None:
            first = (got, (ps, pq, pt))
        else:
            if got.shape != first[0].shape:
                return Fail('layout-shape', f'layout {(ps, pq, pt)} gives shape {got.shape}, layout {first[1]} {first[0].shape}')
            err = _per_matrix_err(got, first[0])
            if err > 10 * _tol(mask_c, observation_c):
                return Fail('layout-value', f'layout (sensor,source,time)={(ps, pq, pt)} differs from layout {first[1]} '
                            f'by rel. {err:.3g}')
    if first is None:
        return Skip('no admissible layout')


@oracle
def psd_boolean_equals_float(observation, mask, sensor_dim, source_dim, time_dim, normalize):
    """a boolean mask is accepted and means the 0/1 float mask"""
    if mask is None or mask.dtype != bool:
        return Skip('not boolean')
    why = _in_domain(observation, mask, sensor_dim, source_dim, time_dim)
    if why:
        return Skip(why)
    kw = dict(sensor_dim=sensor_dim, source_dim=source_dim, time_dim=time_dim, normalize=normalize)
    a = PSD(observation, mask, **kw)
    b = PSD(observation, mask.astype(np.float64), **kw)
    if _per_matrix_err(np.asarray(a), np.asarray(b)) > _tol(None, observation):
        return Fail('boolean-differs-from-float', f'boolean mask and its float copy give different results '
                    f'(rel. {pu.rel_err(a, b):.3g})')


@oracle
def condition_covariance_formula(psd, gamma, hermitian_psd, memory='c'):
    """(Phi + gamma tr(Phi)/D I)/(1+gamma) per leading index; trace, Hermitian symmetry, PSD-ness preserved;
    `memory`: memory layout of the caller's array (harness/gen.relayout)"""
    if gamma < 0:
        return Skip('gamma < 0')
    psd = gen.relayout(psd, memory)
    p0 = np.array(psd, order='C')
    got = np.asarray(bfm.condition_covariance(psd, gamma))
    if np.array(psd, order='C').tobytes() != p0.tobytes():
        return Fail('input-modified', 'condition_covariance changed the caller\'s array')
    if got.shape != p0.shape:
        return Fail('shape', f'shape {got.shape} != {p0.shape}')
    D = p0.shape[-1]
    for idx in np.ndindex(*p0.shape[:-2]):
        phi = p0[idx]
        tr = sum(phi[d, d] for d in range(D))
        ref = (phi + gamma * tr / D * np.eye(D)) / (1 + gamma)
        s = max(float(np.max(np.abs(ref))), float(abs(tr)))
        if float(np.max(np.abs(got[idx] - ref))) > RTOL * s:
            return Fail('value', f'leading index {idx}: differs from (Phi + gamma tr(Phi)/D I)/(1+gamma), gamma={gamma}, '
                        f'abs. {float(np.max(np.abs(got[idx] - ref))):.3g} at scale {s:.3g}')
        tr2 = sum(got[idx][d, d] for d in range(D))
        if abs(tr2 - tr) > RTOL * max(abs(tr), s):
            return Fail('trace-changed', f'leading index {idx}: trace {tr} -> {tr2}')
        if hermitian_psd:
            g = got[idx]
            if float(np.max(np.abs(g - g.conj().T))) > RTOL * s:
                return Fail('not-hermitian', f'leading index {idx}: result not Hermitian')
            ev = np.linalg.eigvalsh((g + g.conj().T) / 2)
            if ev[0] < -1e-9 * max(abs(ev[-1]), abs(ev[0])) - 1e-300:
                return Fail('not-psd', f'leading index {idx}: eigenvalue {ev[0]} < 0 after conditioning a PSD matrix')


# ----------------------------------------------------------------------------- generation
def _gen_case(rng, tier, small, single_ok=False):
    """one PSD problem in canonical layout + one admissible caller layout"""
    nlead = int(rng.integers(0, 4))
    lead = pu.gen_lead(rng, nlead, small=small)
    if small:
        D, T, K = int(rng.integers(1, 5)), int(rng.integers(1, 9)), int(rng.integers(1, 4))
    else:
        D, T, K = int(rng.integers(1, 9)), int(rng.integers(1, 65)), int(rng.integers(1, 6))
    obs_c, okind = pu.gen_obs(rng, lead, D, T)
    if single_ok and okind != 'scaled' and rng.random() < 0.2:
        obs_c, okind = obs_c.astype(np.complex64), okind + '-complex64'      # single-precision STFT
    mode = str(rng.choice(['none', 'plain', 'source', 'source', 'source']))
    n = nlead + 2
    if mode == 'none':
        mask_c, mkind = None, 'none'
    elif mode == 'plain':
        mask_c, mkind = pu.gen_mask(rng, lead, None, T)
    else:
        mask_c, mkind = pu.gen_mask(rng, lead, K, T)
    if okind == 'scaled' and mkind == 'large':
        mask_c, mkind = pu.gen_mask(rng, lead, None if mode == 'plain' else K, T, 'uniform')
    return dict(obs_c=obs_c, mask_c=mask_c, mode=mode, n=n, okind=okind, mkind=mkind, lead=lead, D=D, T=T, K=K)


def _layouts(case):
    n = case['n']
    out = []
    for ps, pt in pu.all_obs_layouts(n):
        if case['mode'] == 'plain' and pt != n - 1:
            continue
        if case['mode'] == 'source':
            for pq in range(n):
                if pq != pt:
                    out.append((ps, pq, pt))
        else:
            out.append((ps, n - 2, pt))
    return out


def _present(case, lay, rng):
    """canonical case -> arrays in the caller's layout and dims as a caller writes them"""
    ps, pq, pt = lay
    n = case['n']
    obs = np.ascontiguousarray(pu.canon_to_layout(case['obs_c'], ps, pt))
    if case['mode'] == 'source':
        mask = np.ascontiguousarray(pu.canon_to_layout(case['mask_c'], pq, pt))
    else:
        mask = case['mask_c']
    if rng.random() < 0.2 and obs.ndim >= 2:          # non-contiguous views are legitimate inputs too
        obs = np.asfortranarray(obs)
    return obs, mask, pu.as_dim(rng, ps, n), pu.as_dim(rng, pq, n), pu.as_dim(rng, pt, n)


def search(ctx):
    rng = ctx.rng
    # (0) the configuration of fixed defect 2fd57a4: boolean mask, default layout, documented shapes
    x = pu.cnormal(rng, (3, 2, 5))
    ctx.run(psd_is_defining_sum, observation=x, mask=rng.random((3, 2, 5)) < 0.5, sensor_dim=-2, source_dim=-2,
            time_dim=-1, normalize=True)
    ctx.run(psd_is_defining_sum, observation=x, mask=rng.random((3, 5)) < 0.5, sensor_dim=-2, source_dim=-2,
            time_dim=-1, normalize=False)
    ctx.run(psd_boolean_equals_float, observation=x, mask=rng.random((3, 2, 5)) < 0.5, sensor_dim=-2, source_dim=-2,
            time_dim=-1, normalize=True)
    n_cases = ctx.n(3000, 40000)
    for i in range(n_cases):
        if ctx.out_of_time(reserve=20):
            break
        case = _gen_case(rng, ctx.tier, small=(i < n_cases // 2), single_ok=True)
        lays = _layouts(case)
        lay = lays[int(rng.integers(len(lays)))]
        normalize = bool(rng.random() < 0.6)
        obs, mask, sd, so, td = _present(case, lay, rng)
        ctx.count(f'search-psd-mask:{case["mkind"]}')
        ctx.count(f'search-psd-obs:{case["okind"]}')
        ctx.count(f'search-psd-nlead:{len(case["lead"])}')
        ctx.count(f'search-psd-normalize:{normalize}')
        ctx.count('search-psd-layout:' + ('default' if lay == (case['n'] - 2, case['n'] - 2, case['n'] - 1) else 'other'))
        memory = 'c' if rng.random() < 0.6 else str(rng.choice(gen.MEMORY_KINDS))
        ctx.count(f'search-psd-memory:{memory}')
        ok = ctx.run(psd_is_defining_sum, observation=obs, mask=mask, sensor_dim=sd, source_dim=so, time_dim=td,
                     normalize=normalize, memory=memory)
        if i < 3:
            ctx.sample({'oracle': 'psd_is_defining_sum', 'obs_shape': list(obs.shape),
                        'mask': None if mask is None else [list(mask.shape), str(mask.dtype), case['mkind']],
                        'dims(sensor,source,time)': [sd, so, td], 'normalize': normalize, 'held': ok})
        if mask is not None and mask.dtype == bool:
            ctx.run(psd_boolean_equals_float, observation=obs, mask=mask, sensor_dim=sd, source_dim=so, time_dim=td,
                    normalize=normalize)
        elif mask is not None and case['mkind'] in ('uniform', 'normalised', 'integer', 'one-hot', 'some-zero', 'float32'):
            c = float(10.0 ** rng.uniform(-3, 3)) if rng.random() < 0.8 else float(rng.choice([2.0, 0.5, 1.0, 1024.0]))
            ctx.run(psd_rescaling_invariant, observation=obs, mask=mask, c=c, sensor_dim=sd, source_dim=so, time_dim=td)
        if i % 4 == 0 and case['okind'] != 'scaled':
            k = min(len(lays), 6)
            pick = [lays[j] for j in rng.choice(len(lays), size=k, replace=False)]
            ctx.run(psd_layouts_agree, observation_c=case['obs_c'], mask_c=case['mask_c'],
                    layouts=[[int(a), int(b), int(c_), bool(rng.random() < 0.5)] for a, b, c_ in pick],
                    normalize=normalize)
    # exhaustive layouts for small fixed shapes (every admissible (sensor_dim, source_dim, time_dim), both signs)
    for nlead in (0, 1, 2, 3):
        lead = (2, 3, 2)[:nlead]
        for mode in ('none', 'plain', 'source'):
            obs_c, _ = pu.gen_obs(rng, lead, 3, 4, 'normal')
            mask_c = None if mode == 'none' else pu.gen_mask(rng, lead, None if mode == 'plain' else 2, 4, 'uniform')[0]
            case = dict(obs_c=obs_c, mask_c=mask_c, mode=mode, n=nlead + 2, lead=lead)
            lays = _layouts(case)
            ctx.count('search-psd-exhaustive-layouts', 2 * len(lays))
            ctx.run(psd_layouts_agree, observation_c=obs_c, mask_c=mask_c,
                    layouts=[[a, b, c_, neg] for a, b, c_ in lays for neg in (False, True)], normalize=True)
            for lay in lays:
                for neg in (False, True):
                    o = case['n'] if neg else 0
                    obs = np.ascontiguousarray(pu.canon_to_layout(obs_c, lay[0], lay[2]))
                    mask = mask_c if mode != 'source' else np.ascontiguousarray(pu.canon_to_layout(mask_c, lay[1], lay[2]))
                    ctx.run(psd_is_defining_sum, observation=obs, mask=mask, sensor_dim=lay[0] - o, source_dim=lay[1] - o,
                            time_dim=lay[2] - o, normalize=bool(rng.random() < 0.5))
    # condition_covariance
    for i in range(ctx.n(1200, 15000)):
        if ctx.out_of_time():
            break
        nlead = int(rng.integers(0, 4))
        lead = pu.gen_lead(rng, nlead)
        D = int(rng.integers(1, 9))
        kind = str(rng.choice(['hpd', 'psd-from-data', 'singular', 'zero', 'general']))
        if kind == 'hpd':
            phi = pu.hpd_stack(rng, lead, D)
        elif kind == 'psd-from-data':
            x = pu.cnormal(rng, lead + (D, int(rng.integers(1, 12))))
            phi = np.einsum('...dt,...et->...de', x, x.conj())
        elif kind == 'singular':
            phi = np.zeros(lead + (D, D), dtype=np.complex128)
            for idx in np.ndindex(*lead):
                phi[idx] = pu.singular_psd(rng, D, str(rng.choice(['zero', 'rank-one', 'dead-channel']))) if D > 1 else 0
        elif kind == 'zero':
            phi = np.zeros(lead + (D, D), dtype=np.complex128)
        else:
            phi = pu.cnormal(rng, lead + (D, D))
        gamma = float(rng.choice([0.0, 1e-6, 0.01, 0.5, 1.0, 10.0])) if rng.random() < 0.5 else float(10.0 ** rng.uniform(-8, 2))
        ctx.count(f'search-condcov:{kind}')
        memory = 'c' if rng.random() < 0.5 else str(rng.choice(gen.MEMORY_KINDS))
        ctx.count(f'search-condcov-memory:{memory}')
        ok = ctx.run(condition_covariance_formula, psd=phi, gamma=gamma, hermitian_psd=(kind != 'general'), memory=memory)
        if i == 0:
            ctx.sample({'oracle': 'condition_covariance_formula', 'shape': list(phi.shape), 'gamma': gamma, 'kind': kind,
                        'held': ok})


# ----------------------------------------------------------------------------- correspondence
def _psd_line(case, normalize):
    """canonical arrays, flattened leading axes"""
    obs_c, mask_c = case['obs_c'], case['mask_c']
    D, T = obs_c.shape[-2:]
    L = int(np.prod(obs_c.shape[:-2], dtype=np.int64))
    if mask_c is None:
        return f'psdnomask {L} {D} {T} {cbits(obs_c)}'
    K = 1 if mask_c.ndim == obs_c.ndim - 1 else mask_c.shape[-2]
    if mask_c.dtype == bool:
        return f'psdbool {int(normalize)} {L} {K} {D} {T} {fbits(pu.FLOOR)} {cbits(obs_c)} ' + \
            ' '.join(str(int(b)) for b in mask_c.ravel())
    return f'psd {int(normalize)} {L} {K} {D} {T} {fbits(pu.FLOOR)} {cbits(obs_c)} {fbits(mask_c.astype(np.float64))}'


def _full_line(case, lay, dims, normalize, obs, mask):
    """caller's layout: shape, dims as written by the caller, row-major data; the Lean model does the axis handling"""
    n = obs.ndim
    sd, so, td = dims
    shape = ' '.join(str(s) for s in obs.shape)
    if mask is None:
        return f'psdfull {n} {shape} {sd + 64} {so + 64} {td + 64} 0 0 {int(normalize)} {fbits(pu.FLOOR)} {cbits(obs)}'
    mshape = ' '.join(str(s) for s in mask.shape)
    kind = 2 if mask.dtype == bool else 1
    return (f'psdfull {n} {shape} {sd + 64} {so + 64} {td + 64} {kind} {mask.ndim} {mshape} {int(normalize)} '
            f'{fbits(pu.FLOOR)} {cbits(obs)} {fbits(mask.astype(np.float64))}')


def corr(ctx):
    rng = ctx.rng
    lines, metas = [], []
    n_cases = ctx.n(500, 6000)
    for i in range(n_cases):
        case = _gen_case(rng, ctx.tier, small=(i % 4 != 0))      # every 4th case: D <= 8, T <= 64, K <= 5
        if case['okind'] == 'scaled' or case['mkind'] == 'float32':
            case['obs_c'], case['okind'] = pu.gen_obs(rng, case['lead'], case['D'], case['T'], 'normal')
            if case['mask_c'] is not None and case['mkind'] == 'float32':
                case['mask_c'] = case['mask_c'].astype(np.float64)
        lays = _layouts(case)
        lay = lays[int(rng.integers(len(lays)))]
        normalize = bool(rng.random() < 0.6)
        obs, mask, sd, so, td = _present(case, lay, rng)
        obs = np.ascontiguousarray(obs)
        want = np.asarray(PSD(obs, mask, sensor_dim=sd, source_dim=so, time_dim=td, normalize=normalize))
        # (a) index-level model on canonical data
        lines.append(_psd_line(case, normalize))
        metas.append(('psd-index', case, lay, (sd, so, td), normalize, want))
        # (b) full-array model: the Lean side does the transposes / rollaxis itself (list-indexed: kept to moderate sizes)
        if want.size * case['T'] <= 40000:
            lines.append(_full_line(case, lay, (sd, so, td), normalize, obs, mask))
            metas.append(('psd-full', case, lay, (sd, so, td), normalize, want))
        ctx.count(f'corr-psd-size:{"small" if i % 4 else "full-range"}')
        ctx.count(f'corr-psd-mask:{case["mkind"]}')
        ctx.count(f'corr-psd-nlead:{len(case["lead"])}')
    out = run_driver(lines, exe='driver_psd')
    for (op, case, lay, dims, normalize, want), o in zip(metas, out):
        n = case['n']
        if op == 'psd-index':
            ref = want
            if case['mode'] == 'source' and lay[1] - n < -2:
                ref = np.moveaxis(want, lay[1], -3)
            got = parse_complex(o)
            ok = got.size == ref.size
            err = _per_matrix_err(got.reshape(ref.shape), ref) if ok else np.inf
        else:
            got = parse_complex(o)
            ok = got.size == want.size
            err = _per_matrix_err(got.reshape(want.shape), want) if ok else np.inf
        ctx.corr(op, bool(ok and err <= RTOL),
                 f'{op}: model vs get_power_spectral_density_matrix rel. {err:.3g}; canonical obs {case["obs_c"].shape} '
                 f'mask {case["mkind"]} layout {lay} dims {dims} normalize={normalize}',
                 {'obs_c': case['obs_c'], 'mask_c': case['mask_c'], 'layout': list(lay), 'dims': list(dims),
                  'normalize': normalize})
    if metas:
        m = metas[-1]
        ctx.sample({'op': 'psd-full', 'canonical_obs_shape': list(m[1]['obs_c'].shape), 'mask_kind': m[1]['mkind'],
                    'layout(sensor,source,time)': list(m[2]), 'dims': list(m[3]), 'normalize': m[4]})
    # condition_covariance
    lines, metas = [], []
    for i in range(ctx.n(300, 4000)):
        nlead = int(rng.integers(0, 4))
        lead = pu.gen_lead(rng, nlead)
        D = int(rng.integers(1, 9))
        phi = pu.hpd_stack(rng, lead, D) if rng.random() < 0.6 else pu.cnormal(rng, lead + (D, D))
        if rng.random() < 0.1:
            phi[...] = 0
        gamma = float(10.0 ** rng.uniform(-6, 2)) if rng.random() < 0.8 else 0.0
        L = int(np.prod(lead, dtype=np.int64))
        lines.append(f'condcov {L} {D} {fbits(gamma)} {cbits(phi)}')
        metas.append((phi, gamma))
    out = run_driver(lines, exe='driver_psd')
    for (phi, gamma), o in zip(metas, out):
        want = np.asarray(bfm.condition_covariance(phi, gamma))
        got = parse_complex(o)
        ok = got.size == want.size
        err = _per_matrix_err(got.reshape(want.shape), want) if ok else np.inf
        ctx.corr('condition_covariance', bool(ok and err <= RTOL), f'rel. {err:.3g} shape {phi.shape} gamma={gamma}',
                 {'psd': phi, 'gamma': gamma})

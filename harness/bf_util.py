"""Helpers shared by the beamformer properties C11 / C12: structured generators (Hermitian positive definite PSDs
with prescribed condition number, rank-one / rank-deficient targets, steering vectors), independent loop-level
reference computations and gauge-free comparisons.  Every random choice comes from the `rng` passed in."""
import numpy as np

EPS = np.finfo(np.float64).eps


# ----------------------------------------------------------------------------- generators
def cnormal(rng, shape):
    return rng.normal(size=shape) + 1j * rng.normal(size=shape)


def unitary(rng, D):
    q, r = np.linalg.qr(cnormal(rng, (D, D)))
    return q


def hpd(rng, D, cond, scale=1.0, spectrum=None):
    """Hermitian positive definite, eigenvalues in [scale, scale*cond] (both ends attained), exactly Hermitian"""
    q = unitary(rng, D)
    spectrum = spectrum or str(rng.choice(['geometric', 'uniform', 'one-big', 'one-small']))
    if D == 1:
        ev = np.ones(1)
    elif spectrum == 'geometric':
        ev = np.exp(np.linspace(0, np.log(cond), D))
    elif spectrum == 'uniform':
        ev = np.sort(np.concatenate([[1.0, cond], 1 + (cond - 1) * rng.random(D - 2)]))
    elif spectrum == 'one-big':
        ev = np.concatenate([np.ones(D - 1) * (1 + 0.1 * rng.random(D - 1)), [cond]])
        ev[0] = 1.0
    else:
        ev = np.concatenate([[1.0], cond * (1 - 0.1 * rng.random(D - 1))])
        ev[-1] = cond
    m = (q * (ev * scale)) @ q.conj().T
    return (m + m.conj().T) / 2


def draw_cond(rng, hi=1e6):
    """condition number: small ones often, up to the quantifier's bound 1e6"""
    r = rng.random()
    if r < 0.15:
        return 1.0 + rng.random()
    if r < 0.3:
        return float(hi)
    return float(10 ** rng.uniform(0, np.log10(hi)))


def draw_scale(rng):
    return float(10 ** rng.uniform(-3, 3)) if rng.random() < 0.5 else 1.0


def hpd_stack(rng, lead, D, cond=None, hi=1e6):
    """stack of HPD matrices with leading shape `lead`; returns (array, largest condition number)"""
    lead = tuple(lead)
    n = int(np.prod(lead)) if lead else 1
    mats, cmax = [], 1.0
    for _ in range(n):
        c = draw_cond(rng, hi) if cond is None else cond
        cmax = max(cmax, c)
        mats.append(hpd(rng, D, c, draw_scale(rng)))
    return np.array(mats).reshape(lead + (D, D)), cmax


def steering(rng, shape, kind=None):
    """steering vectors (..., D): generic complex, pure phase (far field), real, or with one dominant channel"""
    kind = kind or str(rng.choice(['normal', 'phase', 'real', 'dominant', 'scaled']))
    if kind == 'normal':
        a = cnormal(rng, shape)
    elif kind == 'phase':
        a = np.exp(2j * np.pi * rng.random(shape))
    elif kind == 'real':
        a = rng.normal(size=shape) + 0j
    elif kind == 'dominant':
        a = 0.01 * cnormal(rng, shape)
        a[..., int(rng.integers(shape[-1]))] += 1.0
    else:
        a = cnormal(rng, shape) * 10 ** rng.uniform(-3, 3)
    return a, kind


def rank_one(a, sigma):
    """sigma * a a^H, exactly Hermitian;  a (..., D), sigma (...)"""
    m = np.asarray(sigma)[..., None, None] * a[..., :, None] * a[..., None, :].conj()
    return (m + np.swapaxes(m.conj(), -1, -2)) / 2


def psd_target(rng, lead, D, kind=None, cond_hi=1e6):
    """Hermitian positive semidefinite target PSD (non-zero): full rank, rank one, or rank r < D"""
    lead = tuple(lead)
    kind = kind or str(rng.choice(['full', 'full', 'full', 'rank-one', 'rank-one', 'low-rank', 'low-rank',
                                   'rank-one+floor', 'rank-one+floor', 'identity']))
    n = int(np.prod(lead)) if lead else 1
    mats = []
    for _ in range(n):
        if kind == 'full':
            m = hpd(rng, D, draw_cond(rng, cond_hi), draw_scale(rng))
        elif kind == 'rank-one':
            a, _ = steering(rng, (D,))
            m = rank_one(a, 10 ** rng.uniform(-2, 2))
        elif kind == 'low-rank':
            r = int(rng.integers(1, D)) if D > 1 else 1
            b = cnormal(rng, (D, r))
            m = b @ b.conj().T
            m = (m + m.conj().T) / 2
        elif kind == 'identity':          # degenerate: every vector is a principal eigenvector
            m = 10 ** rng.uniform(-2, 2) * np.eye(D) + 0j
        else:
            a, _ = steering(rng, (D,))
            m = rank_one(a, 1.0) + 1e-3 * np.eye(D)
        mats.append(m)
    return np.array(mats).reshape(lead + (D, D)), kind


def lead_shape(rng, max_axes=2, max_len=3):
    k = int(rng.integers(0, max_axes + 1))
    return tuple(int(rng.integers(1, max_len + 1)) for _ in range(k))


# ----------------------------------------------------------------------------- reference computations
def herm(m):
    return 0.5 * (m + np.swapaxes(np.conj(m), -1, -2))


def quad(w, m):
    """w^H M w for one vector / one matrix, loop-free but einsum-free (plain matmul)"""
    return np.conj(w) @ (m @ w)


def rayleigh(w, x, n):
    return float(np.real(quad(w, x)) / np.real(quad(w, n)))


def cond_of(m):
    s = np.linalg.svd(m, compute_uv=False)
    return float(s[..., 0].max() / s[..., -1].min()) if s.size else 1.0


def cond_max(ms):
    s = np.linalg.svd(ms, compute_uv=False)
    return float(np.max(s[..., 0] / s[..., -1]))


def slices(lead):
    return list(np.ndindex(*lead)) if lead else [()]


def projector(w):
    """w w^H / ||w||^2: the gauge-free representation of a direction"""
    w = np.asarray(w)
    return np.outer(w, w.conj()) / np.real(np.vdot(w, w))


def sin_angle(u, v):
    """sine of the angle between the complex lines spanned by u and v (accurate for small angles)"""
    un, vn = u / np.linalg.norm(u), v / np.linalg.norm(v)
    return float(np.linalg.norm(un - vn * np.vdot(vn, un)))


def min_power_competitors(rng, a, phi, n_random=4, pg_steps=60):
    """distortionless competitors v (v^H a = 1) for one bin:
    random ones, and the iterates of a projected-gradient descent on v^H Phi v (adversarial)."""
    D = a.shape[0]
    aa = np.real(np.vdot(a, a))
    v0 = a / aa                                    # v0^H a = 1
    proj = np.eye(D) - np.outer(a, a.conj()) / aa   # orthogonal projector on {x : a^H x = 0}
    out = []
    for _ in range(n_random):
        out.append(('random', v0 + proj @ cnormal(rng, (D,)) * 10 ** rng.uniform(-3, 1) / np.sqrt(aa)))
    # projected gradient, step 1/lambda_max, started at the matched filter and at a random point
    lmax = np.linalg.eigvalsh(phi)[-1]
    for start in (v0, out[0][1]):
        v = start.copy(order='K')
        for _ in range(pg_steps):
            v = v - (proj @ (phi @ v)) / lmax
        out.append(('projected-gradient', v))
    # conjugate-direction refinement: exact line searches along projected gradients (still only competitors)
    v = v0.copy(order='K')
    for _ in range(3 * D):
        g = proj @ (phi @ v)
        den = np.real(quad(g, phi))
        if den <= 0 or not np.isfinite(den):
            break
        v = v - (np.real(np.vdot(g, phi @ v)) / den) * g
    out.append(('line-search', v))
    return out


def probe_vectors(rng, x, n, n_random=4, pi_steps=25):
    """probe vectors for the Rayleigh quotient w^H X w / w^H N w: random, unit vectors, and the iterates of a
    generalised power iteration / gradient ascent (adversarial)"""
    D = x.shape[-1]
    out = [('random', cnormal(rng, (D,))) for _ in range(n_random)]
    out += [('unit', np.eye(D)[int(rng.integers(D))] + 0j)]
    v = cnormal(rng, (D,))
    for i in range(pi_steps):
        v = np.linalg.solve(n, x @ v)
        nv = np.linalg.norm(v)
        if not np.isfinite(nv) or nv == 0:
            break
        v = v / nv
        if i % 6 == 5 or i == pi_steps - 1:
            out.append(('power-iteration', v.copy(order='K')))
    return out
